"""
The constant-expression evaluator of the repository, abstractly evaluated over *symbolic operands*.

  QV      an arbitrary exact number (integer or non-integer sort): every Python operator applied to it is *recorded* as a term,
          so what the evaluated code returns says which operator it applied to which operands in which order - for all values
  SV      an arbitrary string (concatenation, NFC normalisation and comparison recorded)
  BV      the truth value of a recorded comparison (an AbsBool: evaluated code that branches on it is explored both ways)
  FnValue a function of the repository as a first-class value; calling it evaluates the function from its source *with its
          decorators applied* (the decorator expressions are themselves evaluated from source)

Booleans are concrete (the domain is finite: rules enumerate it); sets are built from a pool of element objects so that set
algebra on identities coincides with set algebra on values.
"""
from __future__ import annotations

import ast
from typing import Any, Dict, List, Optional, Sequence, Tuple

from .absint import AObj, Raised, call_fn, construct, ctor_hook, fold_args
from .core import AnalysisError, ClassInfo, Ctx, External, FuncInfo, dotted
from .fold import Abstract, Folder, Unfoldable, _Lambda, _LocalFn, call_value
from .layout import AbsBool

COMMUTATIVE = {"add", "mul", "or", "xor", "and", "eq", "ne"}
MIRROR = {"lt": "gt", "gt": "lt", "le": "ge", "ge": "le"}


def _t(x: Any) -> Any:
    if isinstance(x, (QV, SV)):
        return x.term
    if type(x).__name__ == "Fraction" and x.denominator == 1:
        return int(x)
    if isinstance(x, AbsBool):
        return x.expr
    return x


class BV(AbsBool):
    """the truth value of a recorded comparison"""

    _isa_ = frozenset({"bool", "int"})

    def __repr__(self) -> str:
        return "BV%r" % (self.expr,)


def _cmp(op: str, a: Any, b: Any) -> Any:
    ta, tb = _t(a), _t(b)
    if ta == tb and repr(ta) == repr(tb):
        return op in ("eq", "le", "ge")
    if op in MIRROR and repr(ta) > repr(tb):
        op, ta, tb = MIRROR[op], tb, ta  # one canonical spelling per comparison
    if op in ("eq", "ne") and repr(ta) > repr(tb):
        ta, tb = tb, ta
    if op == "ne":
        return _Not(BV(("eq", ta, tb)))
    return BV((op, ta, tb))


class _Not(BV):
    def __init__(self, inner: BV):
        super().__init__(("not", inner.expr))
        self.inner = inner

    def __bool__(self) -> bool:
        return not bool(self.inner)


def _integer(x: Any) -> bool:
    return x.integer if isinstance(x, QV) else getattr(x, "denominator", 1) == 1


def is_zero(x: Any) -> bool:
    """x == 0, decided along the explored run when x is symbolic"""
    return bool(_cmp("eq", x, 0)) if isinstance(x, QV) else x == 0


def is_negative(x: Any) -> bool:
    return bool(_cmp("lt", x, 0)) if isinstance(x, QV) else x < 0


class CV(Abstract):
    """a complex number (what Python yields for a fractional power of a negative number)"""

    _isa_ = frozenset({"complex"})

    def __init__(self, term: Any):
        self.term = term

    def __repr__(self) -> str:
        return "CV(%r)" % (self.term,)


class QV(Abstract):
    """an arbitrary exact number; integer=True: an arbitrary integer, integer=False: an arbitrary non-integer"""

    _isa_ = frozenset({"Fraction"})

    def __init__(self, term: Any, integer: bool):
        self.term = term
        self.integer = integer

    def __repr__(self) -> str:
        return "QV(%r)" % (self.term,)

    def __hash__(self) -> int:
        return hash(repr(self.term))

    def _bin(self, op: str, o: Any, swap: bool = False, ints_only: bool = False) -> Any:
        if isinstance(o, bool) or not isinstance(o, (QV, int, float)) and type(o).__name__ != "Fraction":
            return NotImplemented
        if isinstance(o, float) and o == int(o):
            o = int(o)  # Fraction ** x goes through float(a) when x is not a Rational number: the same number
        oi = o.integer if isinstance(o, QV) else (getattr(o, "denominator", 1) == 1)
        if ints_only and not (self.integer and oi):
            raise TypeError("unsupported operand type(s) for %s: 'Fraction' and 'Fraction'" % op)
        left, right = (o, self) if swap else (self, o)
        if op in ("truediv", "mod", "floordiv") and is_zero(right):
            raise ZeroDivisionError("Fraction(%s, 0)" % (_t(left),))  # as Fraction does (decided along the explored run)
        if op == "pow":
            if _integer(right):
                if is_negative(right) and is_zero(left):
                    raise ZeroDivisionError("Fraction(%s, 0)" % (_t(left),))
            elif is_negative(left):
                return CV(("pow", _t(left), _t(right)))  # a fractional power of a negative number is complex
        l, r = (_t(o), self.term) if swap else (self.term, _t(o))
        integer = self.integer and oi and op in ("add", "sub", "mul", "mod", "or", "xor", "and", "floordiv")
        return QV((op, l, r), integer)

    def __add__(self, o: Any) -> Any:
        return self._bin("add", o)

    def __radd__(self, o: Any) -> Any:
        return self._bin("add", o, True)

    def __sub__(self, o: Any) -> Any:
        return self._bin("sub", o)

    def __rsub__(self, o: Any) -> Any:
        return self._bin("sub", o, True)

    def __mul__(self, o: Any) -> Any:
        return self._bin("mul", o)

    def __rmul__(self, o: Any) -> Any:
        return self._bin("mul", o, True)

    def __truediv__(self, o: Any) -> Any:
        return self._bin("truediv", o)

    def __rtruediv__(self, o: Any) -> Any:
        return self._bin("truediv", o, True)

    def __floordiv__(self, o: Any) -> Any:
        return self._bin("floordiv", o)

    def __mod__(self, o: Any) -> Any:
        return self._bin("mod", o)

    def __rmod__(self, o: Any) -> Any:
        return self._bin("mod", o, True)

    def __pow__(self, o: Any) -> Any:
        return self._bin("pow", o)

    def __rpow__(self, o: Any) -> Any:
        return self._bin("pow", o, True)

    def __or__(self, o: Any) -> Any:
        return self._bin("or", o, ints_only=True)

    def __xor__(self, o: Any) -> Any:
        return self._bin("xor", o, ints_only=True)

    def __and__(self, o: Any) -> Any:
        return self._bin("and", o, ints_only=True)

    def __ror__(self, o: Any) -> Any:
        return self._bin("or", o, True, ints_only=True)

    def __rxor__(self, o: Any) -> Any:
        return self._bin("xor", o, True, ints_only=True)

    def __rand__(self, o: Any) -> Any:
        return self._bin("and", o, True, ints_only=True)

    def __neg__(self) -> "QV":
        return QV(("neg", self.term), self.integer)

    def __pos__(self) -> "QV":
        return QV(("pos", self.term), self.integer)

    def __eq__(self, o: Any) -> Any:  # type: ignore
        return _cmp("eq", self, o) if isinstance(o, (QV, int)) or type(o).__name__ == "Fraction" else NotImplemented

    def __ne__(self, o: Any) -> Any:  # type: ignore
        return _cmp("ne", self, o) if isinstance(o, (QV, int)) or type(o).__name__ == "Fraction" else NotImplemented

    def __lt__(self, o: Any) -> Any:
        return _cmp("lt", self, o)

    def __le__(self, o: Any) -> Any:
        return _cmp("le", self, o)

    def __gt__(self, o: Any) -> Any:
        return _cmp("gt", self, o)

    def __ge__(self, o: Any) -> Any:
        return _cmp("ge", self, o)

    @property
    def numerator(self) -> Any:
        return self if self.integer else QV(("numerator", self.term), True)

    @property
    def denominator(self) -> Any:
        return 1 if self.integer else _NotOne(("denominator", self.term), True)

    def is_integer(self) -> bool:
        return self.integer

    def __int__(self) -> int:
        raise TypeError("int() of an arbitrary number")

    def __float__(self) -> float:
        raise TypeError("float() of an arbitrary number: exactness lost")


class _NotOne(QV):
    """the denominator of a non-integer: some integer greater than one"""

    def __eq__(self, o: Any) -> Any:  # type: ignore
        if isinstance(o, int) and not isinstance(o, bool) and o <= 1:
            return False
        return QV.__eq__(self, o)

    def __ne__(self, o: Any) -> Any:  # type: ignore
        if isinstance(o, int) and not isinstance(o, bool) and o <= 1:
            return True
        return QV.__ne__(self, o)

    def __gt__(self, o: Any) -> Any:
        if isinstance(o, int) and o <= 1:
            return True
        return QV.__gt__(self, o)

    __hash__ = QV.__hash__


class SV(Abstract):
    """an arbitrary string"""

    _isa_ = frozenset({"str"})

    def __init__(self, term: Any):
        self.term = term

    def __repr__(self) -> str:
        return "SV(%r)" % (self.term,)

    def __hash__(self) -> int:
        return hash(repr(self.term))

    def __add__(self, o: Any) -> Any:
        if not isinstance(o, (SV, str)):
            return NotImplemented
        return SV(("concat", self.term, _t(o)))

    def __radd__(self, o: Any) -> Any:
        if not isinstance(o, str):
            return NotImplemented
        return SV(("concat", o, self.term))

    def __eq__(self, o: Any) -> Any:  # type: ignore
        return _cmp("eq", self, o) if isinstance(o, (SV, str)) else NotImplemented

    def __ne__(self, o: Any) -> Any:  # type: ignore
        return _cmp("ne", self, o) if isinstance(o, (SV, str)) else NotImplemented


class TypeVal(Abstract):
    """type(x) of an evaluated value: comparable, named"""

    _pool: Dict[str, "TypeVal"] = {}

    def __init__(self, key: str, name: str):
        self.key = key
        self.__dict__["__name__"] = name

    @classmethod
    def of(cls, v: Any) -> "TypeVal":
        if isinstance(v, AObj):
            key, name = "repo:" + v._cls_.qualname, v._cls_.name
        else:
            name = getattr(v, "_kind_", None) or type(v).__name__
            key = "py:" + name
        if key not in cls._pool:
            cls._pool[key] = TypeVal(key, name)
        return cls._pool[key]

    def __repr__(self) -> str:
        return "<type %s>" % self.key


class _TypeOf(Abstract):
    """the builtin `type` as a value (e.g. map(type, xs))"""

    def __call__(self, v: Any) -> TypeVal:
        return TypeVal.of(v)


_TYPE_OF = _TypeOf()


class FnValue(Abstract):
    """a module-level function of the repository as a value; calling it evaluates its source, decorators applied"""

    def __init__(self, model: "ExprModel", fn: FuncInfo, raw: bool = False):
        self.model = model
        self.fn = fn
        self.raw = raw
        self.__dict__["__name__"] = fn.name

    def __repr__(self) -> str:
        return "<function %s%s>" % (self.fn.short, " (undecorated)" if self.raw else "")

    def __call__(self, *args: Any, **kwargs: Any) -> Any:
        m = self.model
        if not self.raw and self.fn.node.decorator_list:
            return call_value(_folder(m, self.fn), m.decorated(self.fn), list(args), kwargs)
        m.depth += 1
        try:
            if m.depth > 60:
                raise Unfoldable("recursion through %s" % self.fn.short)
            return call_fn(m.ctx, self.fn, list(args), kwargs, hook=m.hook, keep=tuple(self.fn.module.functions))
        finally:
            m.depth -= 1


def _folder(m: "ExprModel", fn: FuncInfo) -> Folder:
    return Folder({}, m.ctx.repo, fn.module, None, m.hook)


class ExprModel:
    def __init__(self, ctx: Ctx):
        self.ctx = ctx
        self.depth = 0
        self._decorated: Dict[str, Any] = {}
        inner = ctor_hook(ctx, self._base)
        self.hook = inner

    # -- the hook: function values, type(), getattr(), unicodedata.normalize, Fraction of a symbolic number
    def _base(self, e: ast.expr, f: Folder) -> Any:
        repo = self.ctx.repo
        if isinstance(e, ast.Call):
            name = dotted(e.func) or ""
            head = name.split(".")[0]
            if name == "type" and len(e.args) == 1 and "type" not in f.env:
                return TypeVal.of(f.fold(e.args[0]))
            if name == "getattr" and len(e.args) in (2, 3) and "getattr" not in f.env:
                o, a = f.fold(e.args[0]), f.fold(e.args[1])
                if not isinstance(a, str):
                    raise Unfoldable("getattr with an abstract name")
                try:
                    return Folder({"__o": o}, f.repo, f.mod, f.cls, f.hook).fold(ast.Attribute(value=ast.Name(id="__o", ctx=ast.Load()), attr=a, ctx=ast.Load()))
                except Unfoldable:
                    if len(e.args) == 3:
                        return f.fold(e.args[2])
                    raise
            if name == "hasattr" and len(e.args) == 2 and "hasattr" not in f.env:
                o, a = f.fold(e.args[0]), f.fold(e.args[1])
                if isinstance(o, ClassInfo) and isinstance(a, str):
                    return repo.lookup_method(o, a) is not None or repo.lookup_class_attr(o, a) is not None
                if isinstance(o, AObj) and isinstance(a, str):
                    return a in o.__dict__ or repo.lookup_method(o._cls_, a) is not None or repo.lookup_class_attr(o._cls_, a) is not None
                return NotImplemented
            if isinstance(e.func, ast.Attribute) and e.func.attr == "__new__" and len(e.args) == 1 and not e.keywords and head not in f.env and f.mod is not None:
                try:
                    k = repo.resolve_expr(f.mod, e.args[0], f.cls)
                except Exception:
                    k = None
                if isinstance(k, ClassInfo):
                    return AObj(k, self.ctx)  # an instance made without running the constructor
            if name == "issubclass" and len(e.args) == 2 and "issubclass" not in f.env:
                k, base = f.fold(e.args[0]), f.fold(e.args[1])
                if isinstance(k, TypeVal) and isinstance(base, ClassInfo):
                    kc = repo.all_classes().get(k.key[5:]) if k.key.startswith("repo:") else None
                    return kc is not None and repo.is_subclass(kc, base)
                raise Unfoldable("issubclass of %r" % (k,))
            if name == "callable" and len(e.args) == 1:
                v = f.fold(e.args[0])
                return callable(v) or isinstance(v, (_Lambda, _LocalFn))
            if head not in f.env and f.mod is not None and isinstance(e.func, (ast.Name, ast.Attribute)):
                try:
                    r = repo.resolve_expr(f.mod, e.func, f.cls)
                except Exception:
                    r = None
                if isinstance(r, External):
                    if r.dotted == "unicodedata.normalize" and len(e.args) == 2:
                        form, s = f.fold(e.args[0]), f.fold(e.args[1])
                        if isinstance(s, SV):
                            return s if isinstance(s.term, tuple) and s.term[:2] == ("normalize", form) else SV(("normalize", form, s.term))
                        import unicodedata

                        return unicodedata.normalize(form, s)
                    if r.dotted == "fractions.Fraction" and len(e.args) == 1 and not e.keywords:
                        v = f.fold(e.args[0])
                        if isinstance(v, QV):
                            return v  # an exact number stays what it is
                        return NotImplemented
                    if r.dotted.split(".")[0] == "operator" and r.dotted.count(".") == 1:
                        import operator as _op

                        if hasattr(_op, r.dotted.split(".")[1]):
                            try:
                                return getattr(_op, r.dotted.split(".")[1])(*fold_args(f, e))
                            except (ZeroDivisionError, OverflowError, TypeError) as ex:
                                raise Raised(type(ex).__name__, e)  # what the operator raises in the evaluated program
                    if r.dotted == "functools.wraps":
                        return lambda fn: fn
                    if r.dotted == "parsimonious.NodeVisitor.lift_child" or r.dotted.endswith(".lift_child"):
                        a = fold_args(f, e)
                        return a[-1][0]
                if isinstance(r, FuncInfo) and r.cls is None and not (isinstance(e.func, ast.Attribute) and head in ("self", "cls")):
                    return FnValue(self, r)(*fold_args(f, e), **{k.arg: f.fold(k.value) for k in e.keywords if k.arg})
        elif isinstance(e, (ast.Name, ast.Attribute)) and isinstance(e.ctx, ast.Load):
            name = dotted(e) or ""
            if name == "type" and "type" not in f.env:
                return _TYPE_OF
            if name and name.split(".")[0] not in f.env and f.cls is not None and "." in name:
                # a function of a class nested in the current one (e.g. a namespace of decorators)
                nested = repo.all_classes().get("%s.%s" % (f.cls.qualname, name.split(".")[0]))
                if nested is not None and name.count(".") == 1 and name.split(".")[1] in nested.methods:
                    fn = nested.methods[name.split(".")[1]]
                    if fn.is_static:
                        return FnValue(self, fn, raw=True)
            if name and name.split(".")[0] not in f.env and f.mod is not None:
                try:
                    r = repo.resolve_expr(f.mod, e, f.cls)
                except Exception:
                    r = None
                if isinstance(r, FuncInfo) and r.cls is None:
                    return FnValue(self, r)
                if isinstance(r, External) and r.dotted.split(".")[0] == "operator" and "." in r.dotted:
                    import operator as _op

                    if hasattr(_op, r.dotted.split(".")[1]):
                        return getattr(_op, r.dotted.split(".")[1])
                if isinstance(r, External) and r.dotted.endswith(".lift_child"):
                    return lambda _self, _node, children: children[0]
        return NotImplemented

    def decorated(self, fn: FuncInfo) -> Any:
        """the value the name is bound to at run time: the decorators (evaluated from source) applied to the function"""
        if fn.short not in self._decorated:
            v: Any = FnValue(self, fn, raw=True)
            for d in reversed(fn.node.decorator_list):
                f = _folder(self, fn)
                try:
                    dec = f.fold(d)
                    v = call_value(f, dec, [v])
                except Unfoldable as ex:
                    raise AnalysisError("%s: cannot evaluate the decorator %s: %s" % (fn.short, ast.unparse(d), ex))
                except Raised as r:
                    raise AnalysisError("%s: the decorator %s raises %s" % (fn.short, ast.unparse(d), r.cls_name))
            self._decorated[fn.short] = v
        return self._decorated[fn.short]

    # -- operands
    def value(self, kind: str, native: Any) -> AObj:
        """an expression value of the repository's own class (`Rational`, `Boolean`, `String`, `Set`) around a native value"""
        k = self.ctx.cls("_expression." + ("_container." if kind == "Set" else "_primitive.") + kind)
        try:
            return construct(self.ctx, k, native, hook=self.hook)
        except Unfoldable as ex:
            raise AnalysisError("cannot evaluate %s(%r): %s" % (kind, native, ex))

    def native(self, v: Any) -> Any:
        """the public native value of an expression value"""
        if not isinstance(v, AObj):
            raise Unfoldable("not an expression value: %r" % (v,))
        return Folder({"v": v}, self.ctx.repo, v._cls_.module, v._cls_, self.hook).fold(ast.parse("v.native_value", mode="eval").body)

    def elements(self, v: Any) -> List[Any]:
        """the elements of a set value, through the class's own iteration"""
        if not isinstance(v, AObj):
            raise Unfoldable("not an expression value: %r" % (v,))
        return list(Folder({"v": v}, self.ctx.repo, v._cls_.module, v._cls_, self.hook).fold(ast.parse("[x for x in v]", mode="eval").body))

    def call(self, fn: Any, *args: Any) -> Any:
        f = Folder({}, self.ctx.repo, self.ctx.repo.module("_expression._operator"), None, self.hook)
        return call_value(f, fn, list(args))
