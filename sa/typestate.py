"""
Typestate extraction for the attribute pipeline (parser comment buffer -> builder pending callback).

An abstract interpreter over a *finite control state* that is read off the code:

    hdr   parser._comment_is_header              (bool)
    pend  builder._element_callback is not None  (bool)
    age   0 if the pending attribute was queued on the current line, 1 if on an earlier line
    pline parser-side record of the line of the pending attribute is current (bool) - only if the code keeps one

It walks the statements of the visitor methods of `_ParseTreeProcessor` and, through `self._statement_stream_processor`,
of `DataTypeBuilder`, in program order, following calls on `self`, and emits effect events:

    COMMIT(age, protected)   the pending callback is invoked (protected: inside a handler that re-attributes the line
                             from a value captured at queue time)
    QUEUE(overwrote)         a callback is stored (overwrote: one was still pending -> an attribute is lost)
    READ(what, pend)         the schema's attribute lists / offset are read
    NEW_SCHEMA(pend)         the response schema is started
    LINE                     the line counter advances

Nothing is executed; branches on the abstract state are decided, all other branches are explored both ways.
"""
from __future__ import annotations

import ast
from typing import Any, Dict, FrozenSet, Iterable, List, Optional, Sequence, Set, Tuple

from .core import AnalysisError, ClassInfo, Ctx, FuncInfo, Repo, body_without_docstring, dotted, norm

State = Tuple[bool, bool, int, bool]  # (hdr, pend, age, capok: the captured line belongs to the pending attribute)


class Effect:
    __slots__ = ("kind", "info", "where")

    def __init__(self, kind: str, info: Dict[str, Any], where: str):
        self.kind, self.info, self.where = kind, info, where

    def __repr__(self) -> str:
        return "%s%s" % (self.kind, self.info or "")


class Pipeline:
    """Roles discovered from the code (anchors; missing -> AnalysisError)."""

    def __init__(self, ctx: Ctx):
        repo = ctx.repo
        self.repo = repo
        self.parser = ctx.cls("_parser._ParseTreeProcessor")
        base = ctx.cls("_parser.StatementStreamProcessor")
        subs = [c for c in repo.subclasses(base, strict=True)]
        if len(subs) != 1:
            raise AnalysisError("expected exactly one StatementStreamProcessor implementation, found %s" % [c.name for c in subs])
        self.builder = subs[0]
        # state variables, by role (discovered from how the code uses them, not by name)
        self.sp_attr = self._discover_processor_field()
        self.cb_attr = self._discover_callback_slot()
        self.line_attr = self._discover_line_counter()
        self.hdr_attr = self._discover_header_flag()
        self.structs_attr = self._discover_schema_list()
        self.schema_reads = ("attributes", "fields", "constants", "offset")
        # the parser-side record of the pending attribute's line, if the code keeps one: the value a handler passes as
        # `line=` to set_error_location_if_unknown that is not the running counter
        self.cap_attr: Optional[str] = None
        for fn in self.parser.methods.values():
            for c in ast.walk(fn.node):
                if isinstance(c, ast.Call) and isinstance(c.func, ast.Attribute) and c.func.attr == "set_error_location_if_unknown":
                    for k in c.keywords:
                        v = norm(k.value)
                        if k.arg == "line" and v.startswith("self.") and self.line_attr not in v and "current_line_number" not in v:
                            self.cap_attr = v.split(".", 1)[1]


    # ---------------------------------------------------------------- role discovery
    def _init_stores(self, c: ClassInfo) -> Dict[str, ast.AST]:
        init = c.methods.get("__init__")
        if init is None:
            raise AnalysisError("%s.__init__ missing" % c.name)
        out: Dict[str, ast.AST] = {}
        for st in ast.walk(init.node):
            if isinstance(st, (ast.Assign, ast.AnnAssign)):
                tg = st.targets if isinstance(st, ast.Assign) else [st.target]
                for t in tg:
                    d = dotted(t) or ""
                    if d.startswith("self.") and d.count(".") == 1 and st.value is not None:
                        out[d.split(".")[1]] = st.value
        return out

    def _one(self, what: str, cands: List[str]) -> str:
        cands = sorted(set(cands))
        if len(cands) != 1:
            raise AnalysisError("typestate: cannot identify %s (candidates: %s)" % (what, cands))
        return cands[0]

    def _discover_processor_field(self) -> str:
        """the parser field through which the statement stream processor's callbacks are invoked"""
        callbacks = {n for n in self.repo.lookup_method(self.builder, "on_directive") and self.builder.methods or {} if n.startswith("on_")}
        base = next(c for c in self.repo.mro(self.builder) if getattr(c, "name", "") == "StatementStreamProcessor")
        callbacks |= {n for n in getattr(base, "methods", {}) if n.startswith("on_")}
        cands = []
        for fn in self.parser.methods.values():
            for c in ast.walk(fn.node):
                if isinstance(c, ast.Call) and isinstance(c.func, ast.Attribute) and c.func.attr in callbacks and isinstance(c.func.value, ast.Attribute) and norm(c.func.value.value) == "self":
                    cands.append(c.func.value.attr)
        return self._one("the parser's statement stream processor field", cands)

    def _discover_callback_slot(self) -> str:
        """the builder field that is called like a function (the pending attribute's deferred commit)"""
        stores = self._init_stores(self.builder)
        cands = []
        for fn in self.builder.methods.values():
            for c in ast.walk(fn.node):
                if isinstance(c, ast.Call) and isinstance(c.func, ast.Attribute) and norm(c.func.value) == "self" and c.func.attr in stores and c.func.attr not in self.builder.methods:
                    v = stores[c.func.attr]
                    if isinstance(v, ast.Constant) and v.value is None:  # empty at construction, filled while parsing
                        cands.append(c.func.attr)
        return self._one("the builder's pending-commit slot", cands)

    def _discover_line_counter(self) -> str:
        """the parser field advanced by one in the end-of-line visitor"""
        eol = self.parser.methods.get("visit_end_of_line")
        if eol is None:
            raise AnalysisError("anchor visit_end_of_line missing")
        cands = []
        for st in ast.walk(eol.node):
            if isinstance(st, ast.AugAssign) and isinstance(st.op, ast.Add) and (dotted(st.target) or "").startswith("self."):
                cands.append(dotted(st.target).split(".")[1])  # type: ignore
            elif isinstance(st, ast.Assign) and len(st.targets) == 1 and (dotted(st.targets[0]) or "").startswith("self.") and isinstance(st.value, ast.BinOp) and isinstance(st.value.op, ast.Add) and norm(st.value.left) == norm(st.targets[0]):
                cands.append(dotted(st.targets[0]).split(".")[1])  # type: ignore
        return self._one("the parser's line counter", cands)

    def _discover_header_flag(self) -> str:
        """the parser field initialised to True, assigned only the constants True / False, and tested"""
        stores = self._init_stores(self.parser)
        cands = []
        for a, v in stores.items():
            if not (isinstance(v, ast.Constant) and v.value is True):
                continue
            vals = []
            tested = False
            for fn in self.parser.methods.values():
                for n in ast.walk(fn.node):
                    if isinstance(n, ast.Assign) and any(dotted(t) == "self." + a for t in n.targets):
                        vals.append(n.value)
                    if isinstance(n, (ast.If, ast.IfExp, ast.While)) and any(isinstance(x, ast.Attribute) and dotted(x) == "self." + a for x in ast.walk(n.test)):
                        tested = True
            if tested and all(isinstance(x, ast.Constant) and isinstance(x.value, bool) for x in vals):
                cands.append(a)
        return self._one("the parser's header-comment flag", cands)

    def _discover_schema_list(self) -> str:
        """the builder field initialised to a list holding a fresh schema builder"""
        cands = [a for a, v in self._init_stores(self.builder).items() if isinstance(v, ast.List) and any(isinstance(x, ast.Call) and (dotted(x.func) or "").endswith("DataSchemaBuilder") for x in v.elts)]
        return self._one("the builder's list of schemas", cands)


class Interp:
    def __init__(self, pl: Pipeline, line_empty: Optional[bool] = None, directive: Optional[str] = None):
        self.pl = pl
        self.line_empty = line_empty
        self.directive = directive
        self.depth = 0

    # returns list of (state, effects, terminated: 'ok'|'raise'|'return')
    def run_method(self, cls: ClassInfo, name: str, st: State, protected: bool = False) -> List[Tuple[State, List[Effect]]]:
        fn = self.pl.repo.lookup_method(cls, name)
        if fn is None:
            raise AnalysisError("method %s.%s not found" % (cls.name, name))
        self.depth += 1
        if self.depth > 12:
            raise AnalysisError("typestate: call depth exceeded at %s.%s" % (cls.name, name))
        try:
            outs = self._block(fn, cls, body_without_docstring(fn.node), st, [], protected)
        finally:
            self.depth -= 1
        # a raising path aborts the parse: not an obligation of the automaton
        return [(s, e) for s, e, term in outs if term in ("ok", "return")]

    def _block(self, fn: FuncInfo, cls: ClassInfo, stmts: Sequence[ast.stmt], st: State, eff: List[Effect], prot: bool) -> List[Tuple[State, List[Effect], str]]:
        if not stmts:
            return [(st, eff, "ok")]
        out: List[Tuple[State, List[Effect], str]] = []
        for s1, e1, t1 in self._stmt(fn, cls, stmts[0], st, eff, prot):
            if t1 != "ok":
                out.append((s1, e1, t1))
            else:
                out.extend(self._block(fn, cls, stmts[1:], s1, e1, prot))
        return out

    def _where(self, fn: FuncInfo, n: ast.AST) -> str:
        return "%s:%d" % (fn.module.relpath, getattr(n, "lineno", 0))

    def _reads(self, fn: FuncInfo, e: ast.AST, st: State, eff: List[Effect]) -> List[Effect]:
        out = list(eff)
        for n in ast.walk(e):
            if isinstance(n, ast.Attribute) and n.attr in self.pl.schema_reads and (self.pl.structs_attr in norm(n.value) or norm(n.value) in ("builder", "request_builder", "response_builder", "schema", "struct")):
                out.append(Effect("READ", {"what": norm(n), "pend": st[1]}, self._where(fn, n)))
        return out

    def _test(self, fn: FuncInfo, cls: ClassInfo, t: ast.AST, st: State) -> Optional[bool]:
        s = norm(t)
        hdr, pend, age, capok = st
        if s == "self.%s" % self.pl.hdr_attr and cls is self.pl.parser:
            return hdr
        if s == "not self.%s" % self.pl.hdr_attr and cls is self.pl.parser:
            return not hdr
        if s == "self.%s is not None" % self.pl.cb_attr:
            return pend
        if s == "self.%s is None" % self.pl.cb_attr:
            return not pend
        if s in ("len(node.text) == 0", "not node.text", "node.text == ''") and self.line_empty is not None:
            return self.line_empty
        if s in ("len(node.text) != 0", "len(node.text) > 0", "node.text") and self.line_empty is not None:
            return not self.line_empty
        return None

    def _stmt(self, fn: FuncInfo, cls: ClassInfo, s: ast.stmt, st: State, eff: List[Effect], prot: bool) -> List[Tuple[State, List[Effect], str]]:
        hdr, pend, age, capok = st
        if isinstance(s, (ast.Pass, ast.Import, ast.ImportFrom, ast.Assert, ast.Delete, ast.FunctionDef, ast.Global)):
            return [(st, eff, "ok")]
        if isinstance(s, ast.Raise):
            return [(st, eff, "raise")]
        if isinstance(s, ast.Return):
            if s.value is not None:
                outs = self._expr(fn, cls, s.value, st, eff, prot)
                return [(a, b, "return") for a, b in outs]
            return [(st, eff, "return")]
        if isinstance(s, ast.Expr):
            return [(a, b, "ok") for a, b in self._expr(fn, cls, s.value, st, eff, prot)]
        if isinstance(s, (ast.Assign, ast.AnnAssign, ast.AugAssign)):
            targets = s.targets if isinstance(s, ast.Assign) else [s.target]
            value = s.value
            outs = self._expr(fn, cls, value, st, eff, prot) if value is not None else [(st, eff)]
            res = []
            for st2, eff2 in outs:
                h2, p2, a2, c2 = st2
                for t in targets:
                    d = dotted(t) or ""
                    if d == "self.%s" % self.pl.hdr_attr and cls is self.pl.parser:
                        v = norm(value)
                        if v not in ("True", "False"):
                            raise AnalysisError("typestate: header flag assigned a non-constant at %s" % self._where(fn, s))
                        h2 = v == "True"
                    elif d == "self.%s" % self.pl.cb_attr:
                        v = norm(value)
                        if isinstance(s, ast.AugAssign):
                            raise AnalysisError("typestate: callback slot updated in place")
                        if v == "None":
                            p2 = False
                        else:
                            if fn.name == "__init__":
                                continue
                            eff2 = eff2 + [Effect("QUEUE", {"overwrote": p2}, self._where(fn, s))]
                            p2, a2, c2 = True, 0, False
                    elif d == "self.%s" % self.pl.line_attr and cls is self.pl.parser:
                        eff2 = eff2 + [Effect("LINE", {"stmt": norm(s)}, self._where(fn, s))]
                        if p2:
                            a2 = 1
                    elif self.pl.cap_attr and d == "self.%s" % self.pl.cap_attr and cls is self.pl.parser and fn.name != "__init__":
                        # the record now holds the line of the *current* statement: that is the pending attribute's line
                        # only if the pending attribute was queued by this very statement (age 0)
                        c2 = bool(p2 and a2 == 0)
                        eff2 = eff2 + [Effect("CAPTURE", {"pend": p2, "age": a2, "for_pending": c2}, self._where(fn, s))]
                res.append(((h2, p2, a2, c2), eff2, "ok"))
            return res
        if isinstance(s, ast.If):
            eff_t = self._reads(fn, s.test, st, eff)
            known = self._test(fn, cls, s.test, st)
            res = []
            if known is not False:
                res.extend(self._block(fn, cls, s.body, st, eff_t, prot))
            if known is not True:
                res.extend(self._block(fn, cls, s.orelse, st, eff_t, prot))
            return res
        if isinstance(s, ast.Try):
            # does a handler re-attribute the line from a captured value?
            relabel = False
            for h in s.handlers:
                for c in ast.walk(ast.Module(body=h.body, type_ignores=[])):
                    if isinstance(c, ast.Call) and isinstance(c.func, ast.Attribute) and c.func.attr == "set_error_location_if_unknown":
                        for k in c.keywords:
                            if k.arg == "line" and "current_line_number" not in norm(k.value) and self.pl.line_attr not in norm(k.value):
                                relabel = True
            res = []
            for s2, e2, t2 in self._block(fn, cls, s.body, st, eff, prot or relabel):
                if t2 == "ok":
                    res.extend(self._block(fn, cls, list(s.orelse) + list(s.finalbody), s2, e2, prot))
                else:
                    res.append((s2, e2, t2))
            return res
        if isinstance(s, (ast.For, ast.While)):
            # loops in the pipeline code carry no typestate effects; verify that and skip
            inner = Interp(self.pl, self.line_empty, self.directive)
            inner.depth = self.depth
            probe = inner._block(fn, cls, s.body, st, [], prot)
            for s2, e2, _ in probe:
                if s2 != st or any(e.kind in ("COMMIT", "QUEUE", "NEW_SCHEMA", "LINE") for e in e2):
                    raise AnalysisError("typestate: loop with pipeline effects at %s" % self._where(fn, s))
            return [(st, self._reads(fn, s, st, eff), "ok")]
        if isinstance(s, ast.With):
            return self._block(fn, cls, s.body, st, eff, prot)
        raise AnalysisError("typestate: unsupported statement %s at %s" % (type(s).__name__, self._where(fn, s)))

    def _expr(self, fn: FuncInfo, cls: ClassInfo, e: ast.AST, st: State, eff: List[Effect], prot: bool) -> List[Tuple[State, List[Effect]]]:
        """evaluate calls inside the expression in (approximate) evaluation order"""
        calls = [n for n in _ordered_calls(e)]
        outs = [(st, self._reads(fn, e, st, eff))]
        for c in calls:
            nxt = []
            for st2, eff2 in outs:
                nxt.extend(self._call(fn, cls, c, st2, eff2, prot))
            outs = nxt
        return outs

    def _call(self, fn: FuncInfo, cls: ClassInfo, c: ast.Call, st: State, eff: List[Effect], prot: bool) -> List[Tuple[State, List[Effect]]]:
        hdr, pend, age, capok = st
        f = c.func
        fs = norm(f)
        pl = self.pl
        if fs == "self.%s" % pl.cb_attr:
            return [((hdr, pend, age, capok), eff + [Effect("COMMIT", {"age": age, "protected": prot, "pend": pend, "capok": capok}, self._where(fn, c))])]
        if isinstance(f, ast.Attribute) and isinstance(f.value, ast.Name) and f.value.id == "self":
            m = pl.repo.lookup_method(cls, f.attr)
            if m is not None and not m.is_property:
                return [(s2, e2) for s2, e2 in self.run_method_from(cls, f.attr, st, eff, prot)]
            return [(st, eff)]
        if isinstance(f, ast.Attribute) and norm(f.value) == "self.%s" % pl.sp_attr and cls is pl.parser:
            return self.run_method_from(pl.builder, f.attr, st, eff, prot)
        if fs.endswith("%s.append" % pl.structs_attr):
            return [(st, eff + [Effect("NEW_SCHEMA", {"pend": pend}, self._where(fn, c))])]
        if isinstance(f, ast.Name) and cls is pl.builder and self.directive is not None and fn.name == "on_directive" and f.id not in ("isinstance", "len", "str", "repr"):
            # dispatch through the directive table of on_directive
            table = None
            for n in ast.walk(fn.node):
                if isinstance(n, ast.Subscript) and isinstance(n.value, ast.Dict):
                    table = n.value
            if table is None:
                raise AnalysisError("typestate: directive table not found")
            for k, v in zip(table.keys, table.values):
                if isinstance(k, ast.Constant) and k.value == self.directive and isinstance(v, ast.Attribute) and norm(v.value) == "self":
                    return self.run_method_from(cls, v.attr, st, eff, prot)
            return [(st, eff)]  # unknown directive: raises
        return [(st, eff)]

    def run_method_from(self, cls: ClassInfo, name: str, st: State, eff: List[Effect], prot: bool) -> List[Tuple[State, List[Effect]]]:
        return [(s2, eff + e2) for s2, e2 in self.run_method(cls, name, st, prot)]


def _ordered_calls(e: ast.AST) -> List[ast.Call]:
    """calls in evaluation order (arguments before the call itself); lambdas are not entered"""
    out: List[ast.Call] = []

    def rec(n: ast.AST) -> None:
        if isinstance(n, ast.Lambda):
            return
        for ch in ast.iter_child_nodes(n):
            rec(ch)
        if isinstance(n, ast.Call):
            out.append(n)

    rec(e)
    return out
