"""
Procedure-boundary normalisation: a function's body with the calls to *private helpers* expanded in place.

"Extract method" is the commonest behaviour-preserving edit; a rule that reads the shape of one function must see the same
program whether a step lives in the function or in a private helper it calls.  `Inliner.inlined(fn)` returns a copy of
fn's FunctionDef in which every call that

  * resolves statically to exactly one repository function (module-level `_f(...)`, `self._m(...)` / `cls._m(...)` /
    `Class._m(...)` with no override in any subclass, or a local `def` of the enclosing function),
  * whose callee is private (leading underscore, or local), not a generator, not recursive, not decorated with anything but
    staticmethod / classmethod, and
  * appears either as the whole value of an expression statement / assignment / return ("statement helper"), or whose callee
    reduces to a single returned expression ("expression helper"),

is replaced by the callee's body (returns eliminated structurally: guard clauses become if/else, the tail value is
assigned to the call's target).  Parameters are substituted when the argument is a name / attribute chain / constant and
the parameter is not reassigned, otherwise bound by an assignment placed before the body.  Callee locals are renamed
only when they collide with the caller's names.  Asserts of expression helpers are dropped (they are beliefs, not
behaviour).  Anything that cannot be expanded faithfully (returns inside loops / try / with, *args, unknown keywords) is
left as a call.  Nothing is executed.
"""
from __future__ import annotations

import ast
import copy
from typing import Any, Dict, List, Optional, Sequence, Set, Tuple

from .core import ClassInfo, FuncInfo, Repo, body_without_docstring, dotted

MAX_DEPTH = 4
MAX_CALLEE_STATEMENTS = 60


class _NotInlinable(Exception):
    pass


def _is_simple_arg(e: ast.AST) -> bool:
    if isinstance(e, ast.Constant):
        return True
    if isinstance(e, ast.Name):
        return True
    if isinstance(e, ast.Attribute):
        return _is_simple_arg(e.value)
    return False


def _stores(node: ast.AST) -> Set[str]:
    out: Set[str] = set()
    for n in ast.walk(node):
        if isinstance(n, ast.Name) and isinstance(n.ctx, (ast.Store, ast.Del)):
            out.add(n.id)
        elif isinstance(n, (ast.FunctionDef, ast.ClassDef)):
            out.add(n.name)
        elif isinstance(n, ast.ExceptHandler) and n.name:
            out.add(n.name)
    return out


def _names(node: ast.AST) -> Set[str]:
    return {n.id for n in ast.walk(node) if isinstance(n, ast.Name)} | {a.arg for n in ast.walk(node) if isinstance(n, ast.arguments) for a in n.posonlyargs + n.args + n.kwonlyargs}


class _Subst(ast.NodeTransformer):
    def __init__(self, env: Dict[str, ast.AST], rename: Dict[str, str]):
        self.env = env
        self.rename = rename

    def visit_Name(self, n: ast.Name) -> ast.AST:
        if n.id in self.env and isinstance(n.ctx, ast.Load):
            return copy.deepcopy(self.env[n.id])
        if n.id in self.rename:
            return ast.copy_location(ast.Name(id=self.rename[n.id], ctx=n.ctx), n)
        return n

    def visit_ExceptHandler(self, n: ast.ExceptHandler) -> ast.AST:
        n = self.generic_visit(n)  # type: ignore
        if n.name and n.name in self.rename:
            n.name = self.rename[n.name]
        return n

    def visit_FunctionDef(self, n: ast.FunctionDef) -> ast.AST:
        # nested definitions inside a callee: parameters shadow
        shadow = {a.arg for a in n.args.posonlyargs + n.args.args + n.args.kwonlyargs}
        sub = _Subst({k: v for k, v in self.env.items() if k not in shadow}, {k: v for k, v in self.rename.items() if k not in shadow})
        n.body = [sub.visit(s) for s in n.body]
        n.args.defaults = [self.visit(d) for d in n.args.defaults]
        if n.name in self.rename:
            n.name = self.rename[n.name]
        return n

    def visit_Lambda(self, n: ast.Lambda) -> ast.AST:
        shadow = {a.arg for a in n.args.posonlyargs + n.args.args + n.args.kwonlyargs}
        sub = _Subst({k: v for k, v in self.env.items() if k not in shadow}, {k: v for k, v in self.rename.items() if k not in shadow})
        n.body = sub.visit(n.body)
        n.args.defaults = [self.visit(d) for d in n.args.defaults]
        return n

    def _comprehension(self, n: Any) -> ast.AST:
        # the targets of a comprehension are names of its own scope: a temporary of the same name outside is another variable
        # (only the iterable of the first `for` is evaluated outside)
        shadow = {x.id for g in n.generators for x in ast.walk(g.target) if isinstance(x, ast.Name)}
        if not (shadow & set(self.env)):
            return self.generic_visit(n)
        sub = _Subst({k: v for k, v in self.env.items() if k not in shadow}, self.rename)
        first = self.visit(n.generators[0].iter)
        for i, g in enumerate(n.generators):
            g.target = sub.visit(g.target)
            g.iter = first if i == 0 else sub.visit(g.iter)
            g.ifs = [sub.visit(c) for c in g.ifs]
        if isinstance(n, ast.DictComp):
            n.key, n.value = sub.visit(n.key), sub.visit(n.value)
        else:
            n.elt = sub.visit(n.elt)
        return n

    visit_ListComp = visit_SetComp = visit_GeneratorExp = visit_DictComp = _comprehension


def _ends(stmts: Sequence[ast.stmt]) -> bool:
    """does control never fall off the end of this block?"""
    if not stmts:
        return False
    last = stmts[-1]
    if isinstance(last, (ast.Return, ast.Raise, ast.Continue, ast.Break)):
        return True
    if isinstance(last, ast.If):
        return _ends(last.body) and _ends(last.orelse)
    return False


def _has_return(node: ast.AST) -> bool:
    stack = [node]
    while stack:
        n = stack.pop()
        if isinstance(n, ast.Return):
            return True
        if isinstance(n, (ast.FunctionDef, ast.Lambda, ast.ClassDef)) and n is not node:
            continue
        stack.extend(ast.iter_child_nodes(n))
    return False


class Inliner:
    def __init__(self, repo: Repo):
        self.repo = repo
        self._cache: Dict[Any, ast.FunctionDef] = {}
        self.keep: Set[str] = set()
        self.expanded: Dict[str, List[str]] = {}

    # ------------------------------------------------------------------ public
    def inlined(self, fn: FuncInfo, keep: Sequence[str] = ()) -> ast.FunctionDef:
        """`keep`: names of callees the caller of this analysis treats as primitives (left as calls)"""
        key = (fn.qualname, tuple(sorted(keep)))
        if key not in self._cache:
            self.keep = set(keep)
            node = copy.deepcopy(fn.node)
            self.expanded[fn.qualname] = []
            node.body = self._block(fn, node.body, [fn.qualname], set(_names(fn.node)))
            ast.fix_missing_locations(node)
            from .loopnorm import normalize_loops

            normalize_loops(node)  # hand-written walks over a collection are read as the `for` they stand for
            self._cache[key] = node
        return self._cache[key]

    # ------------------------------------------------------------------ resolution
    def _resolve(self, fn: FuncInfo, call: ast.Call) -> Optional[Tuple[FuncInfo, Optional[ast.AST]]]:
        """(callee, receiver expression to bind to its first parameter or None)"""
        f = call.func
        repo = self.repo
        if isinstance(f, ast.Name):
            # local def of this function or of an enclosing one
            cur: Optional[FuncInfo] = fn
            while cur is not None:
                if f.id in cur.nested:
                    return cur.nested[f.id], None
                cur = cur.parent
            if not f.id.startswith("_"):
                return None
            r = repo.resolve_expr(fn.module, f, fn.cls)
            if isinstance(r, FuncInfo) and r.cls is None:
                if r.module is not fn.module:
                    return None  # a helper imported from another module: its free names mean what they mean *there* - it is called, not spliced in
                return r, None
            return None
        if isinstance(f, ast.Attribute) and f.attr.startswith("_") and not f.attr.startswith("__"):
            base = f.value
            c: Optional[ClassInfo] = None
            recv: Optional[ast.AST] = None
            if isinstance(base, ast.Name) and base.id in ("self", "cls") and fn.cls is not None:
                c = fn.cls
                recv = base
            else:
                r = repo.resolve_expr(fn.module, base, fn.cls) if isinstance(base, (ast.Name, ast.Attribute)) else None
                if isinstance(r, ClassInfo):
                    c = r
                elif isinstance(base, ast.Call) and dotted(base.func) == "super" and fn.cls is not None:
                    return None
            if c is None:
                return None
            m = repo.lookup_method(c, f.attr)
            if m is None or m.is_property:
                return None
            # dynamic dispatch must be unambiguous
            for s in repo.subclasses(c, strict=True):
                if f.attr in s.methods and s.methods[f.attr] is not m:
                    return None
            if m.is_static:
                return m, None
            if m.is_classmethod:
                return m, (recv if recv is not None else base)
            if recv is None:
                return None  # Class._method(obj, ...) style: leave
            return m, recv
        return None

    def _inlinable(self, callee: FuncInfo, chain: List[str]) -> bool:
        if callee.qualname in chain or len(chain) > MAX_DEPTH or callee.name in self.keep:
            return False
        if any(d not in ("staticmethod", "classmethod") for d in callee.decorators):
            return False
        n = callee.node
        if n.args.vararg or n.args.kwarg:
            return False
        cnt = 0
        for x in ast.walk(n):
            if isinstance(x, (ast.Yield, ast.YieldFrom, ast.Await, ast.Global, ast.Nonlocal)):
                return False
            if isinstance(x, ast.stmt):
                cnt += 1
        if cnt > MAX_CALLEE_STATEMENTS:
            return False
        # recursion through itself
        for c in ast.walk(n):
            if isinstance(c, ast.Call) and ((isinstance(c.func, ast.Name) and c.func.id == callee.name) or (isinstance(c.func, ast.Attribute) and c.func.attr == callee.name)):
                return False
        return True

    # ------------------------------------------------------------------ binding
    def _bind(self, callee: FuncInfo, call: ast.Call, recv: Optional[ast.AST], taken: Set[str]) -> Tuple[Dict[str, ast.AST], Dict[str, str], List[ast.stmt]]:
        a = callee.node.args
        pos = [x.arg for x in a.posonlyargs + a.args]
        kwonly = [x.arg for x in a.kwonlyargs]
        actual: Dict[str, ast.AST] = {}
        params = list(pos)
        if recv is not None:
            if not params:
                raise _NotInlinable()
            actual[params[0]] = recv
            params = params[1:]
        if any(isinstance(x, ast.Starred) for x in call.args) or any(k.arg is None for k in call.keywords):
            raise _NotInlinable()
        if len(call.args) > len(params):
            raise _NotInlinable()
        for p, v in zip(params, call.args):
            actual[p] = v
        for k in call.keywords:
            if k.arg not in pos + kwonly or k.arg in actual:
                raise _NotInlinable()
            actual[k.arg] = k.value  # type: ignore
        defaults = dict(zip(reversed(pos), reversed(a.defaults)))
        for p, d in zip(kwonly, a.kw_defaults):
            if d is not None:
                defaults[p] = d
        for p in pos + kwonly:
            if p not in actual:
                if p not in defaults:
                    raise _NotInlinable()
                actual[p] = defaults[p]
        body = callee.node.body
        reassigned = set()
        for st in body:
            reassigned |= _stores(st)
        locals_ = set(reassigned)
        # a nested function shares the enclosing function's variables: its free names are the caller's
        env: Dict[str, ast.AST] = {}
        rename: Dict[str, str] = {}
        pre: List[ast.stmt] = []
        used_counts: Dict[str, int] = {}
        for n in ast.walk(callee.node):
            if isinstance(n, ast.Name) and isinstance(n.ctx, ast.Load):
                used_counts[n.id] = used_counts.get(n.id, 0) + 1

        def fresh(base: str) -> str:
            cand = base
            i = 0
            while cand in taken:
                i += 1
                cand = "%s__%s%s" % (callee.name.strip("_"), base, "" if i == 1 else str(i))
            taken.add(cand)
            return cand

        for p in pos + kwonly:
            v = actual[p]
            if p not in reassigned and (_is_simple_arg(v) or used_counts.get(p, 0) <= 1) and not self._captures(v, locals_):
                env[p] = v
            else:
                nm = fresh(p)
                if nm != p:
                    rename[p] = nm
                pre.append(ast.copy_location(ast.Assign(targets=[ast.Name(id=nm, ctx=ast.Store())], value=copy.deepcopy(v), lineno=call.lineno), call))
        for l in sorted(locals_ - set(pos + kwonly)):
            nm = fresh(l)
            if nm != l:
                rename[l] = nm
        return env, rename, pre

    @staticmethod
    def _captures(arg: ast.AST, callee_locals: Set[str]) -> bool:
        """would substituting `arg` into the callee capture one of the callee's own local names?"""
        return any(isinstance(n, ast.Name) and n.id in callee_locals for n in ast.walk(arg))

    # ------------------------------------------------------------------ expansion
    def _as_expression(self, callee: FuncInfo) -> Optional[ast.AST]:
        """callee == (asserts / single-assignment temporaries)* return E  ->  E with the temporaries substituted"""
        env: Dict[str, ast.AST] = {}
        raw: Dict[str, ast.AST] = {}
        body = body_without_docstring(callee.node)
        for i, st in enumerate(body):
            if isinstance(st, ast.Assert):
                continue
            if isinstance(st, ast.Return) and i == len(body) - 1 and st.value is not None:
                # a temporary whose value has effects (a call that may raise, consume an iterator, record something) must be
                # evaluated exactly once and in the order written: substitution is the function only when every such
                # temporary is read exactly once, and in the order in which the temporaries were assigned
                impure = [k for k in raw if not self._pure(env[k])]  # (its own value, or a temporary it is computed from)
                roots = [k for k in raw if not self._pure(raw[k])]
                uses: Dict[str, int] = {k: 0 for k in raw}
                for k, v in list(raw.items()) + [("<return>", st.value)]:
                    for x in ast.walk(v):
                        if isinstance(x, ast.Name) and isinstance(x.ctx, ast.Load) and x.id in uses:
                            uses[x.id] += 1
                if any(uses[k] != 1 for k in impure):
                    return None
                if len(roots) > 1:
                    return None  # (the order of two effects is not worth reasoning about: the function is evaluated as written)
                return _Subst(env, {}).visit(copy.deepcopy(st.value))
            if isinstance(st, (ast.Assign, ast.AnnAssign)):
                t = st.targets[0] if isinstance(st, ast.Assign) and len(st.targets) == 1 else (st.target if isinstance(st, ast.AnnAssign) else None)
                if isinstance(t, ast.Name) and st.value is not None and t.id not in env and t.id not in [a.arg for a in callee.node.args.args]:
                    raw[t.id] = st.value
                    env[t.id] = _Subst(env, {}).visit(copy.deepcopy(st.value))
                    continue
            return None
        return None

    def _expr(self, fn: FuncInfo, e: ast.AST, chain: List[str], taken: Set[str]) -> ast.AST:
        """expand expression helpers inside an expression (bottom-up)"""
        outer = self

        class T(ast.NodeTransformer):
            def visit_Lambda(self, n: ast.Lambda) -> ast.AST:
                return n

            def visit_Call(self, n: ast.Call) -> ast.AST:
                n = self.generic_visit(n)  # type: ignore
                r = outer._resolve(fn, n)
                if r is None:
                    return n
                callee, recv = r
                if not outer._inlinable(callee, chain):
                    return n
                ex = outer._as_expression(callee)
                if ex is None:
                    return n
                try:
                    env, rename, pre = outer._bind(callee, n, recv, set(taken))
                except _NotInlinable:
                    return n
                # inside an expression nothing can be bound by a statement: every argument is substituted, which is faithful
                # when it is pure (or used at most once, in which case _bind has substituted it already)
                for st in pre:
                    tgt = st.targets[0].id  # type: ignore
                    orig = next((k for k, v in rename.items() if v == tgt), tgt)
                    if not outer._pure(st.value):  # type: ignore
                        return n
                    env[orig] = st.value  # type: ignore
                outer.expanded.setdefault(chain[0], []).append(callee.qualname)
                out = _Subst(env, {}).visit(ex)
                return ast.copy_location(out, n)

        return T().visit(e)

    @staticmethod
    def _pure(e: ast.AST) -> bool:
        for n in ast.walk(e):
            if isinstance(n, (ast.Call, ast.Yield, ast.Await, ast.NamedExpr)):
                # calls of builtins without effects are fine
                if isinstance(n, ast.Call) and dotted(n.func) in ("int", "len", "max", "min", "abs", "str", "bool", "float", "list", "tuple", "set", "sorted", "isinstance"):
                    continue
                return False
        return True

    def _eliminate_returns(self, stmts: List[ast.stmt], mode: str, target: Optional[List[ast.AST]], at: ast.AST) -> List[ast.stmt]:
        """
        mode 'return': callee returns become the caller's returns (any position is fine);
        mode 'assign' / 'expr': returns must be in tail position of if/else chains; guard clauses are folded.
        """
        if mode == "return":
            # a callee that can fall off its end returns None - and so does the caller at this point
            return list(stmts) if _ends(stmts) else list(stmts) + [ast.copy_location(ast.Return(value=ast.Constant(value=None)), at)]

        def tail(block: List[ast.stmt]) -> List[ast.stmt]:
            out: List[ast.stmt] = []
            for i, st in enumerate(block):
                rest = block[i + 1 :]
                if isinstance(st, ast.Return):
                    if mode == "assign":
                        val = st.value if st.value is not None else ast.Constant(value=None)
                        out.append(ast.copy_location(ast.Assign(targets=copy.deepcopy(target), value=val, lineno=st.lineno), st))  # type: ignore
                    elif st.value is not None and not isinstance(st.value, ast.Constant):
                        out.append(ast.copy_location(ast.Expr(value=st.value), st))
                    return out  # anything after a return is dead
                if isinstance(st, ast.If) and (_has_return(st)):
                    body_ends, else_ends = _ends(st.body), _ends(st.orelse)
                    if body_ends and not else_ends:
                        new = ast.copy_location(ast.If(test=st.test, body=tail(list(st.body)), orelse=tail(list(st.orelse) + rest)), st)
                    elif else_ends and not body_ends:
                        new = ast.copy_location(ast.If(test=st.test, body=tail(list(st.body) + rest), orelse=tail(list(st.orelse))), st)
                    elif body_ends and else_ends:
                        new = ast.copy_location(ast.If(test=st.test, body=tail(list(st.body)), orelse=tail(list(st.orelse))), st)
                    else:
                        raise _NotInlinable()
                    if not new.body:
                        new.body = [ast.copy_location(ast.Pass(), st)]
                    out.append(new)
                    return out
                if _has_return(st):
                    raise _NotInlinable()  # return inside a loop / try / with
                out.append(st)
            if mode == "assign":
                out.append(ast.copy_location(ast.Assign(targets=copy.deepcopy(target), value=ast.Constant(value=None), lineno=getattr(at, "lineno", 0)), at))  # type: ignore
            return out

        return tail(stmts)

    def _statement_call(self, st: ast.stmt) -> Optional[Tuple[ast.Call, str, Optional[List[ast.AST]]]]:
        if isinstance(st, ast.Expr) and isinstance(st.value, ast.Call):
            return st.value, "expr", None
        if isinstance(st, ast.Return) and isinstance(st.value, ast.Call):
            return st.value, "return", None
        if isinstance(st, ast.Assign) and isinstance(st.value, ast.Call):
            return st.value, "assign", list(st.targets)
        if isinstance(st, ast.AnnAssign) and isinstance(st.value, ast.Call) and st.simple:
            return st.value, "assign", [st.target]
        return None

    def _block(self, fn: FuncInfo, stmts: List[ast.stmt], chain: List[str], taken: Set[str]) -> List[ast.stmt]:
        out: List[ast.stmt] = []
        for st in stmts:
            out.extend(self._stmt(fn, st, chain, taken))
        return out

    def _stmt(self, fn: FuncInfo, st: ast.stmt, chain: List[str], taken: Set[str]) -> List[ast.stmt]:
        if isinstance(st, (ast.FunctionDef, ast.AsyncFunctionDef, ast.ClassDef)):
            return [st]
        sc = self._statement_call(st)
        if sc is not None:
            call, mode, target = sc
            r = self._resolve(fn, call)
            if r is not None and self._inlinable(r[0], chain) and self._as_expression(r[0]) is None:
                callee, recv = r
                try:
                    # arguments first (they may contain expression helpers)
                    call2 = copy.deepcopy(call)
                    call2.args = [self._expr(fn, a, chain, taken) for a in call2.args]
                    for k in call2.keywords:
                        k.value = self._expr(fn, k.value, chain, taken)
                    env, rename, pre = self._bind(callee, call2, recv, taken)
                    body = [copy.deepcopy(s) for s in body_without_docstring(callee.node)]
                    sub = _Subst(env, rename)
                    body = [sub.visit(s) for s in body]
                    body = self._eliminate_returns(body, mode, target, st)
                    self.expanded.setdefault(chain[0], []).append(callee.qualname)
                    # the callee's own helper calls
                    body = self._block(callee, body, chain + [callee.qualname], taken)
                    return pre + body
                except _NotInlinable:
                    pass
        # compound statements: recurse into blocks, expand expression helpers in the header expressions
        for field, value in ast.iter_fields(st):
            if isinstance(value, list) and value and isinstance(value[0], ast.stmt):
                setattr(st, field, self._block(fn, value, chain, taken))
            elif isinstance(value, list) and value and isinstance(value[0], ast.ExceptHandler):
                for h in value:
                    h.body = self._block(fn, h.body, chain, taken)
            elif isinstance(value, ast.AST) and not isinstance(value, (ast.expr_context, ast.operator)):
                if isinstance(value, ast.expr):
                    setattr(st, field, self._expr(fn, value, chain, taken))
            elif isinstance(value, list):
                setattr(st, field, [self._expr(fn, v, chain, taken) if isinstance(v, ast.expr) else v for v in value])
        return [st]
