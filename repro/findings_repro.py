#!/venv/bin/python
"""
Reproduction of the defects listed in DESIGN.md section 4 against the real code (run: /venv/bin/python
repro/findings_repro.py). This is documentation of *genuine findings* only -- it is NOT part of any check;
the checks themselves never import or run pydsdl.
"""
import shutil, tempfile
from pathlib import Path
import pydsdl


def read(files, target_root="ns", **kw):
    d = Path(tempfile.mkdtemp(prefix="pydsdl-repro-"))
    try:
        for rel, text in files.items():
            p = d / rel
            p.parent.mkdir(parents=True, exist_ok=True)
            p.write_bytes(text.encode())
        prints = []
        try:
            r = pydsdl.read_namespace(
                d / target_root, [], print_output_handler=lambda p, l, t: prints.append((p.name, l, t)), **kw
            )
            return [(str(t), [(str(a), a.doc) for a in t.attributes]) for t in r], prints
        except Exception as ex:  # pylint: disable=broad-except
            return (type(ex).__name__, isinstance(ex, pydsdl.InternalError), getattr(ex, "line", None)), prints
    finally:
        shutil.rmtree(d)


def show(tag, res):
    print("%-4s %s" % (tag, res))


SVC = "@sealed\n---\n@sealed\n"
show("F1", read({"ns/A.1.0.dsdl": "@sealed\nuint8 a\nuint8 b"}))  # b is lost
show("F2", read({"ns/A.1.0.dsdl": "uint8 X = 1000\n# c\n\n\n@sealed\n"}))  # line 3, should be 1
show("F3", read({"ns/A.1.0.dsdl": "B.1.0 b\n@sealed\n", "ns/B.1.0.dsdl": "\n\n@print 1\n@sealed\n"}))  # path A
show("F4", read({"ns/A.1.0.dsdl": "@print 'a\nb'\n@assert false\n@sealed\n"}))  # line 2, should be 3
show("F5a", read({"ns/A.1.0.dsdl": "@assert (-1) ** 0.5 == 1\n@sealed\n"}))  # InternalError
show("F5b", read({"ns/A.1.0.dsdl": "@assert (10 ** 400) ** 0.5 == 1\n@sealed\n"}))  # InternalError
show("F6", read({"ns/A.1.0.dsdl": "@assert '\\U00110000' == 'a'\n@sealed\n"}))  # InternalError
show("F7a", read({"ns/A.1.0.dsdl": "S.1.0 x\n@sealed\n", "ns/S.1.0.dsdl": SVC}))  # InternalError
show("F7b", read({"ns/A.1.0.dsdl": "S.1.0[2] x\n@sealed\n", "ns/S.1.0.dsdl": SVC}))  # InternalError
show("F7c", read({"ns/A.1.0.dsdl": "@print S.1.0._extent_\n@sealed\n", "ns/S.1.0.dsdl": SVC}))  # InternalError
show("F11", read({"ns/A.1.0.dsdl": "uint8 x\nuint8 y\n\nB.1.0 b\n@sealed\n", "ns/B.1.0.dsdl": "uint8 z\n"}))  # line 4 (of A) with B's path; None after the fix
show("F12a", read({"ns/A.1.0.dsdl": "uint8 a\n# doc a\n   \n# other\nuint8 b\n@sealed\n"}))  # see docs below
show("F13", read({"ns/A.1.0.dsdl": "".join("uint8 f%d\n" % i for i in range(250)) + "@sealed\n"}))  # RecursionError (known finding, not repaired)
show("F9", read({"ns/A.1.0.dsdl": "@sealed\n", "ns/1_0.B.+1. 0.dsdl": "@sealed\n"}, allow_unregulated_fixed_port_id=True))

d = Path(tempfile.mkdtemp(prefix="pydsdl-repro-"))
try:
    (d / "ns").mkdir()
    (d / "ns" / "A.1.0.dsdl").write_text("@sealed\n")
    t = pydsdl.read_namespace(d / "ns")[0]
    t.name_components.append("x")
    show("F8", ("short_name after mutating the returned list:", t.short_name))  # 'x'
finally:
    shutil.rmtree(d)


def f14_f15_twin_files() -> None:
    """F14 (C13.R5) / F15 (C10.R7): two files of one directory that spell the same name and version.  Before the fixes:
    read_namespace -> AssertionError; read_files dropped the second requested file silently."""
    import tempfile
    from pathlib import Path

    import pydsdl

    with tempfile.TemporaryDirectory() as d:
        ns = Path(d) / "ns"
        ns.mkdir()
        (ns / "Foo.1.0.dsdl").write_text("uint8 a\n@sealed\n")
        (ns / "Foo.1.0.uavcan").write_text("uint16 b\n@sealed\n")
        for label, f in (("read_namespace", lambda: pydsdl.read_namespace(ns)), ("read_files", lambda: pydsdl.read_files([ns / "Foo.1.0.dsdl", ns / "Foo.1.0.uavcan"], [ns]))):
            try:
                r = f()
                print("F14/F15", label, "->", [str(t) for t in (r if isinstance(r, list) else r[0])])
            except Exception as ex:  # noqa
                print("F14/F15", label, "->", type(ex).__name__)


f14_f15_twin_files()


def f16_f17_paths() -> None:
    """F16 (C15.R7): a file 'Foo .1.0.dsdl' was accepted and named ns.Foo (the name was stripped before it was checked).
    F17 (C15.R8): a relative target that contains its root namespace directory ('types/ns/sub/7.C.1.2.dsdl' with the root
    'ns' or 'types/ns' - documented usages) was joined onto the root's parent once more and reported as missing."""
    import os
    import tempfile
    from pathlib import Path

    import pydsdl

    with tempfile.TemporaryDirectory() as d:
        d = os.path.realpath(d)
        ns = Path(d) / "types" / "ns"
        (ns / "sub").mkdir(parents=True)
        (ns / "sub" / "7.C.1.2.dsdl").write_text("uint8 a\n@sealed\n")
        (ns / "Foo .1.0.dsdl").write_text("uint8 a\n@sealed\n")
        try:
            print("F16 read_namespace ->", [str(t) for t in pydsdl.read_namespace(ns, allow_unregulated_fixed_port_id=True)])
        except Exception as ex:  # noqa
            print("F16 read_namespace ->", type(ex).__name__)
        (ns / "Foo .1.0.dsdl").unlink()
        old = os.getcwd()
        os.chdir(d)
        try:
            for roots in (["ns"], [Path("types/ns")]):
                try:
                    r = pydsdl.read_files(["types/ns/sub/7.C.1.2.dsdl"], roots, allow_unregulated_fixed_port_id=True)
                    print("F17 read_files", roots, "->", [str(t) for t in r[0]])
                except Exception as ex:  # noqa
                    print("F17 read_files", roots, "->", type(ex).__name__, str(ex).replace(d, "")[:90])
        finally:
            os.chdir(old)


f16_f17_paths()


def f18_huge_values() -> None:
    """F18 (C13.R8): values of more than 4300 decimal digits quoted in a diagnostic or printed.  Before the fix every line
    below ended in InternalError (ValueError: Exceeds the limit (4300 digits) for integer string conversion)."""
    for text in ("uint8 K = 10 ** 5000\n@sealed\n", "uint8[10 ** 5000 / 3] a\n@sealed\n", "uint8 a\n@extent 10 ** 5000 + 1\n", "uint8 a\n@print 10 ** 5000\n@sealed\n", "uint8 a\n@assert 10 ** 5000 / 0 == 1\n@sealed\n"):
        r = read({"ns/A.1.0.dsdl": text})
        print("F18", repr(text[:30]), "->", str(r)[:90])


f18_huge_values()
